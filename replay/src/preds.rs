//! The properties' own predicates, evaluated on results of the real crate.
use crate::gen::{self, B};
use crate::leaf;
use crate::{run, Case};
use cteepbd::types::*;
use serde_json::{json, Value};

fn tol(x: f32) -> f32 {
    2e-4 * x.abs().max(1.0) + leaf::noise() as f32
}
/// two evaluations of a share / fraction that the property says are the same number (no energy-sized allowance)
fn same_ratio(a: f32, b: f32) -> bool {
    (a - b).abs() <= 2e-4 * a.abs().max(b.abs()).max(1.0) && a.is_finite() && b.is_finite()
}
/// a <= b for ratios (renewable shares) whose denominator is `den` kWh
fn ratio_le(a: f32, b: f32, den: f32) -> bool {
    a <= b + 2e-4 + (leaf::noise() as f32) / den.max(1e-6) && a.is_finite() && b.is_finite()
}
fn eq(a: f32, b: f32) -> bool {
    (a - b).abs() <= tol(a.abs().max(b.abs())) && a.is_finite() && b.is_finite()
}
fn ge0(a: f32) -> bool {
    a >= -1e-4 && a.is_finite()
}
fn le(a: f32, b: f32) -> bool {
    a <= b + tol(b) && a.is_finite() && b.is_finite()
}
fn r3eq(a: RenNrenCo2, b: RenNrenCo2) -> bool {
    eq(a.ren, b.ren) && eq(a.nren, b.nren) && eq(a.co2, b.co2)
}

/// C01 on one result; returns a description of the first violated sentence
pub fn c01(ep: &EnergyPerformance) -> Option<String> {
    // "for every energy carrier of the building": every carrier that has a consumption, production or auxiliary component has a balance,
    // and the EPB use / production of that balance are those of the building's components (read from their public fields)
    {
        let n = ep.components.data.iter().map(|c| match c { Energy::Used(e) => e.values.len(), Energy::Prod(e) => e.values.len(), Energy::Aux(e) => e.values.len(), Energy::Out(e) => e.values.len() }).max().unwrap_or(0);
        let mut epus: std::collections::HashMap<Carrier, Vec<f32>> = std::collections::HashMap::new();
        let mut prod: std::collections::HashMap<Carrier, Vec<f32>> = std::collections::HashMap::new();
        for c in &ep.components.data {
            let (cr, vals, is_epus, is_prod) = match c {
                Energy::Used(e) => (e.carrier, &e.values, e.service.is_epb(), false),
                Energy::Aux(e) => (Carrier::ELECTRICIDAD, &e.values, e.service.is_epb(), false),
                Energy::Prod(e) => (Carrier::from(e.source), &e.values, false, true),
                Energy::Out(_) => continue,
            };
            let u = epus.entry(cr).or_insert_with(|| vec![0.0; n]);
            if is_epus { for (i, v) in vals.iter().enumerate() { if i < n { u[i] += v; } } }
            let p = prod.entry(cr).or_insert_with(|| vec![0.0; n]);
            if is_prod { for (i, v) in vals.iter().enumerate() { if i < n { p[i] += v; } } }
        }
        for (cr, u) in &epus {
            let b = match ep.balance_cr.get(cr) { Some(b) => b, None => return Some(format!("{}: the building has components of this carrier (EPB use {:?}) but the result has no balance for it", cr, u)) };
            for i in 0..n.min(b.used.epus_t.len()) {
                if !eq(b.used.epus_t[i], u[i]) { return Some(format!("{} step {}: EPB use in the balance {} != EPB use of the building's components {}", cr, i, b.used.epus_t[i], u[i])); }
                if !eq(b.prod.t[i], prod[cr][i]) { return Some(format!("{} step {}: production in the balance {} != production of the building's components {}", cr, i, b.prod.t[i], prod[cr][i])); }
            }
        }
    }
    for (cr, b) in &ep.balance_cr {
        let n = b.used.epus_t.len();
        for i in 0..n {
            let (pr, us, ex, nx, gx, ue, un, dg) =
                (b.prod.t[i], b.prod.epus_t[i], b.exp.t[i], b.exp.nepus_t[i], b.exp.grid_t[i], b.used.epus_t[i], b.used.nepus_t[i], b.del.grid_t[i]);
            if !eq(pr, us + ex) { return Some(format!("{} step {}: produced {} != used {} + exported {}", cr, i, pr, us, ex)); }
            if !eq(ex, nx + gx) { return Some(format!("{} step {}: exported {} != nEPB {} + grid {}", cr, i, ex, nx, gx)); }
            if !eq(ue, us + dg) { return Some(format!("{} step {}: EPB use {} != produced-and-used {} + grid delivered {}", cr, i, ue, us, dg)); }
            for (name, v) in [("produced", pr), ("produced-and-used", us), ("exported", ex), ("exported to nEPB", nx), ("exported to grid", gx), ("EPB use", ue), ("grid delivered", dg)] {
                if !ge0(v) { return Some(format!("{} step {}: {} = {} is negative or not finite", cr, i, name, v)); }
            }
            if !le(us, ue.min(pr)) { return Some(format!("{} step {}: produced-and-used {} > min(use {}, production {})", cr, i, us, ue, pr)); }
            if !le(nx, un) { return Some(format!("{} step {}: exported to nEPB {} > nEPB use {}", cr, i, nx, un)); }
            for (src, p) in &b.prod.by_src_t {
                let u = b.prod.epus_by_src_t.get(src).map(|v| v[i]);
                let e = b.exp.by_src_t.get(src).map(|v| v[i]);
                match (u, e) {
                    (Some(u), Some(e)) => {
                        if !eq(p[i], u + e) { return Some(format!("{} step {} source {}: produced {} != used {} + exported {}", cr, i, src, p[i], u, e)); }
                        if !ge0(u) || !ge0(e) { return Some(format!("{} step {} source {}: used {} / exported {} negative", cr, i, src, u, e)); }
                    }
                    _ => return Some(format!("{} source {}: per-source split missing", cr, src)),
                }
            }
        }
    }
    None
}

/// C12 on a pair (with / without load matching) of results of the same building
pub fn c12(lm: &EnergyPerformance, nolm: &EnergyPerformance) -> Option<String> {
    for (cr, b) in &lm.balance_cr {
        let b0 = nolm.balance_cr.get(cr)?;
        let n = b.used.epus_t.len();
        for i in 0..n {
            let f = b.f_match[i];
            if !(f >= 0.5 - 1e-5 && f <= 1.0 + 1e-5) { return Some(format!("{} step {}: f_match {} outside [0.5, 1]", cr, i, f)); }
            if !eq(b0.f_match[i], 1.0) { return Some(format!("{} step {}: f_match {} != 1 without load matching", cr, i, b0.f_match[i])); }
            let (p, u) = (b.prod.t[i], b.used.epus_t[i]);
            let want = if p > 0.0 && u > 0.0 { let x = p / u; (x + 1.0 / x - 1.0) / (x + 1.0 / x) } else { 1.0 };
            if !eq(f, want) { return Some(format!("{} step {}: f_match {} != formula {} (production {}, use {})", cr, i, f, want, p, u)); }
            if !le(b.prod.epus_t[i], b0.prod.epus_t[i]) { return Some(format!("{} step {}: load matching raises self-use {} > {}", cr, i, b.prod.epus_t[i], b0.prod.epus_t[i])); }
            if !le(b0.del.grid_t[i], b.del.grid_t[i]) { return Some(format!("{} step {}: load matching lowers grid delivery {} < {}", cr, i, b.del.grid_t[i], b0.del.grid_t[i])); }
            for bb in [b, b0] {
                let pv = bb.prod.by_src_t.get(&ProdSource::EL_INSITU).map(|v| v[i]).unwrap_or(0.0);
                let upv = bb.prod.epus_by_src_t.get(&ProdSource::EL_INSITU).map(|v| v[i]).unwrap_or(0.0);
                let uch = bb.prod.epus_by_src_t.get(&ProdSource::EL_COGEN).map(|v| v[i]).unwrap_or(0.0);
                if uch > 1e-5 && bb.prod.by_src_t.contains_key(&ProdSource::EL_INSITU) && !eq(upv, pv * bb.f_match[i]) {
                    return Some(format!("{} step {}: cogenerated electricity used ({}) although on-site production is not fully allocated (used {} of {} x f {})", cr, i, uch, upv, pv, bb.f_match[i]));
                }
                if !le(upv + uch, bb.used.epus_t[i]) { return Some(format!("{} step {}: allocations {} + {} exceed EPB use {}", cr, i, upv, uch, bb.used.epus_t[i])); }
            }
        }
    }
    None
}

/// C03 on evaluations of the same building at k = 0, 0.25, 0.5, 1
pub fn c03(eps: &[(f32, EnergyPerformance)]) -> Option<String> {
    let e0 = &eps.iter().find(|e| e.0 == 0.0)?.1;
    let e1 = &eps.iter().find(|e| e.0 == 1.0)?.1;
    for (k, e) in eps {
        let aff = |a: RenNrenCo2, b1: RenNrenCo2| RenNrenCo2::new(a.ren + k * (b1.ren - a.ren), a.nren + k * (b1.nren - a.nren), a.co2 + k * (b1.co2 - a.co2));
        if !r3eq(e.balance.we.a, e0.balance.we.a) { return Some(format!("k={}: total step A {} depends on k_exp (k=0 gives {})", k, e.balance.we.a, e0.balance.we.a)); }
        if !r3eq(e.balance.we.b, aff(e0.balance.we.a, e1.balance.we.b)) { return Some(format!("k={}: total step B {} is not A + k (B(1) - A)", k, e.balance.we.b)); }
        for (s, v) in &e.balance.we.a_by_srv {
            if let Some(v0) = e0.balance.we.a_by_srv.get(s) { if !r3eq(*v, *v0) { return Some(format!("k={}: step A of service {} depends on k_exp: {} vs {}", k, s, v, v0)); } }
        }
        for (s, v) in &e.balance_m2.we.a_by_srv {
            if let Some(v0) = e0.balance_m2.we.a_by_srv.get(s) { if !r3eq(*v, *v0) { return Some(format!("k={}: per-m2 step A of service {} depends on k_exp: {} vs {}", k, s, v, v0)); } }
        }
        if !r3eq(e.balance_m2.we.a, e0.balance_m2.we.a) { return Some(format!("k={}: per-m2 step A depends on k_exp", k)); }
        for (s, v) in &e.balance.we.b_by_srv {
            if let (Some(a), Some(b1)) = (e0.balance.we.a_by_srv.get(s), e1.balance.we.b_by_srv.get(s)) {
                if !r3eq(*v, aff(*a, *b1)) { return Some(format!("k={}: step B of service {} = {} is not affine in k_exp", k, s, v)); }
            }
        }
        for (cr, b) in &e.balance_cr {
            let (b0, b1) = (e0.balance_cr.get(cr)?, e1.balance_cr.get(cr)?);
            if !r3eq(b.we.a, b0.we.a) { return Some(format!("k={} {}: step A depends on k_exp", k, cr)); }
            if !r3eq(b.we.b, aff(b0.we.a, b1.we.b)) { return Some(format!("k={} {}: step B {} not affine", k, cr, b.we.b)); }
            if !eq(b.del.an, b0.del.an) || !eq(b.exp.an, b0.exp.an) || !eq(b.prod.epus_an, b0.prod.epus_an) || !eq(b.used.epus_an, b0.used.epus_an) {
                return Some(format!("k={} {}: final-energy flows depend on k_exp", k, cr));
            }
            if b.exp.an == 0.0 && !r3eq(b.we.b, b.we.a) { return Some(format!("k={} {}: nothing exported but B != A", k, cr)); }
        }
    }
    if !r3eq(e0.balance.we.b, e0.balance.we.a) { return Some("k=0: step B != step A".into()); }
    // every final-energy flow and every part of the step A result, whole building / per m2 / per carrier / per step, is the same at every k_exp
    let fixed = |e: &EnergyPerformance| -> leaf::Leaves { leaf::results(e, false).into_iter().filter(|(p, _)| leaf::k_independent(p)).collect() };
    let l0 = fixed(e0);
    for (k, e) in eps {
        if let Some(d) = leaf::diff(&l0, &fixed(e), 1.0) { return Some(format!("k={}: a figure that does not involve k_exp changes with it: {}", k, d)); }
    }
    None
}

/// C04 on one result
pub fn c04(ep: &EnergyPerformance) -> Option<String> {
    let b = &ep.balance;
    let sum = |f: &dyn Fn(&BalanceCarrier) -> f32| -> f32 { ep.balance_cr.values().map(|c| f(c)).sum() };
    for (name, tot, s) in [
        ("used.epus", b.used.epus, sum(&|c| c.used.epus_an)), ("used.nepus", b.used.nepus, sum(&|c| c.used.nepus_an)), ("used.cgnus", b.used.cgnus, sum(&|c| c.used.cgnus_an)),
        ("prod.an", b.prod.an, sum(&|c| c.prod.an)), ("del.an", b.del.an, sum(&|c| c.del.an)), ("del.grid", b.del.grid, sum(&|c| c.del.grid_an)), ("del.onst", b.del.onst, sum(&|c| c.del.onst_an)),
        ("exp.an", b.exp.an, sum(&|c| c.exp.an)), ("exp.grid", b.exp.grid, sum(&|c| c.exp.grid_an)), ("exp.nepus", b.exp.nepus, sum(&|c| c.exp.nepus_an)),
        ("we.a.nren", b.we.a.nren, sum(&|c| c.we.a.nren)), ("we.b.nren", b.we.b.nren, sum(&|c| c.we.b.nren)), ("we.a.ren", b.we.a.ren, sum(&|c| c.we.a.ren)), ("we.b.ren", b.we.b.ren, sum(&|c| c.we.b.ren)),
        ("we.b.co2", b.we.b.co2, sum(&|c| c.we.b.co2)), ("we.del.nren", b.we.del.nren, sum(&|c| c.we.del.nren)), ("we.exp.nren", b.we.exp.nren, sum(&|c| c.we.exp.nren)), ("we.exp_a.nren", b.we.exp_a.nren, sum(&|c| c.we.exp_a.nren)),
    ] {
        if !eq(tot, s) { return Some(format!("whole-building {} = {} but the per-carrier figures add up to {}", name, tot, s)); }
    }
    if !eq(b.used.epus, b.used.epus_by_srv.values().sum()) { return Some("EPB use by service does not add up".into()); }
    if !eq(b.used.epus, b.used.epus_by_cr.values().sum()) { return Some("EPB use by carrier does not add up".into()); }
    if !eq(b.prod.an, b.prod.by_src.values().sum()) { return Some("production by source does not add up".into()); }
    if !eq(b.prod.an, b.prod.by_cr.values().sum()) { return Some("production by carrier does not add up".into()); }
    let epus_src: f32 = b.prod.epus_by_src.values().sum();
    let epus_cr: f32 = ep.balance_cr.values().map(|c| c.prod.epus_an).sum();
    if !eq(epus_src, epus_cr) { return Some(format!("produced-and-used by source {} != per-carrier total {}", epus_src, epus_cr)); }
    let epus_srv_src: f32 = b.prod.epus_by_srv_by_src.values().map(|m| m.values().sum::<f32>()).sum();
    if !eq(epus_srv_src, epus_cr) { return Some(format!("produced-and-used by service and source {} != total {}", epus_srv_src, epus_cr)); }
    for (s, v) in &b.we.a_by_srv {
        let t: f32 = ep.balance_cr.values().filter_map(|c| c.we.a_by_srv.get(s)).map(|r| r.nren).sum();
        if !eq(v.nren, t) { return Some(format!("step A weighted energy of service {} = {} but carriers add up to {}", s, v.nren, t)); }
    }
    for (s, v) in &b.we.b_by_srv {
        let t: f32 = ep.balance_cr.values().filter_map(|c| c.we.b_by_srv.get(s)).map(|r| r.nren).sum();
        if !eq(v.nren, t) { return Some(format!("step B weighted energy of service {} = {} but carriers add up to {}", s, v.nren, t)); }
    }
    for c in ep.balance_cr.values() {
        if !eq(c.del.an, c.del.grid_an + c.del.onst_an + c.del.cgn_an) { return Some(format!("{}: delivered != grid + on-site + cogeneration input", c.carrier)); }
        if !eq(c.exp.an, c.exp.grid_an + c.exp.nepus_an) { return Some(format!("{}: exported != grid + nEPB", c.carrier)); }
        if !eq(c.used.epus_an, c.used.epus_by_srv_an.values().sum()) { return Some(format!("{}: EPB use by service does not add up", c.carrier)); }
        if !eq(c.prod.an, c.prod.by_src_an.values().sum()) { return Some(format!("{}: production by source does not add up", c.carrier)); }
        if !eq(c.prod.epus_an, c.prod.epus_by_src_an.values().sum()) { return Some(format!("{}: produced-and-used {} != sum by source {}", c.carrier, c.prod.epus_an, c.prod.epus_by_src_an.values().sum::<f32>())); }
        if c.used.epus_an > 0.0 {
            let t: f32 = c.we.b_by_srv.values().map(|r| r.nren).sum();
            if !eq(c.we.b.nren, t) { return Some(format!("{}: weighted energy by service {} != total {}", c.carrier, t, c.we.b.nren)); }
            let t: f32 = c.we.a_by_srv.values().map(|r| r.nren).sum();
            if !eq(c.we.a.nren, t) { return Some(format!("{}: step A weighted energy by service {} != total {}", c.carrier, t, c.we.a.nren)); }
        }
    }
    let k = 1.0 / ep.arearef;
    let m = &ep.balance_m2;
    for (name, x, y) in [("used.epus", m.used.epus, b.used.epus * k), ("prod.an", m.prod.an, b.prod.an * k), ("del.an", m.del.an, b.del.an * k), ("del.grid", m.del.grid, b.del.grid * k),
        ("exp.an", m.exp.an, b.exp.an * k), ("we.a.nren", m.we.a.nren, b.we.a.nren * k), ("we.b.nren", m.we.b.nren, b.we.b.nren * k), ("we.b.ren", m.we.b.ren, b.we.b.ren * k), ("we.b.co2", m.we.b.co2, b.we.b.co2 * k)] {
        if !eq(x, y) { return Some(format!("per-m2 {} = {} != total / area = {}", name, x, y)); }
    }
    for (name, x, y) in [("used.nepus", m.used.nepus, b.used.nepus * k), ("used.cgnus", m.used.cgnus, b.used.cgnus * k), ("del.onst", m.del.onst, b.del.onst * k), ("exp.grid", m.exp.grid, b.exp.grid * k), ("exp.nepus", m.exp.nepus, b.exp.nepus * k),
        ("we.a.ren", m.we.a.ren, b.we.a.ren * k), ("we.a.co2", m.we.a.co2, b.we.a.co2 * k), ("we.del.nren", m.we.del.nren, b.we.del.nren * k), ("we.exp.nren", m.we.exp.nren, b.we.exp.nren * k), ("we.exp_a.nren", m.we.exp_a.nren, b.we.exp_a.nren * k)] {
        if !eq(x, y) { return Some(format!("per-m2 {} = {} != total / area = {}", name, x, y)); }
    }
    for (name, x, y) in [("needs.ACS", m.needs.ACS, b.needs.ACS), ("needs.CAL", m.needs.CAL, b.needs.CAL), ("needs.REF", m.needs.REF, b.needs.REF)] {
        match (x, y) { (Some(x), Some(y)) => if !eq(x, y * k) { return Some(format!("per-m2 {} = {} != total / area = {}", name, x, y * k)); }, (None, None) => {}, _ => return Some(format!("per-m2 {} is {:?} but the absolute value is {:?}", name, x, y)) }
    }
    for (mname, a, bm) in [("used.epus_by_srv", &m.used.epus_by_srv, &b.used.epus_by_srv)] { for (s, v) in bm { if a.get(s).map(|w| eq(*w, v * k)) != Some(true) { return Some(format!("per-m2 {}[{}] wrong or missing", mname, s)); } } }
    for (mname, a, bm) in [("used.epus_by_cr", &m.used.epus_by_cr, &b.used.epus_by_cr), ("prod.by_cr", &m.prod.by_cr, &b.prod.by_cr), ("del.grid_by_cr", &m.del.grid_by_cr, &b.del.grid_by_cr)] { for (s, v) in bm { if a.get(s).map(|w| eq(*w, v * k)) != Some(true) { return Some(format!("per-m2 {}[{}] wrong or missing", mname, s)); } } }
    for (mname, a, bm) in [("prod.by_src", &m.prod.by_src, &b.prod.by_src), ("prod.epus_by_src", &m.prod.epus_by_src, &b.prod.epus_by_src)] { for (s, v) in bm { if a.get(s).map(|w| eq(*w, v * k)) != Some(true) { return Some(format!("per-m2 {}[{}] wrong or missing", mname, s)); } } }
    for (s, v) in &b.we.b_by_srv { if let Some(w) = m.we.b_by_srv.get(s) { if !(eq(w.nren, v.nren * k) && eq(w.ren, v.ren * k) && eq(w.co2, v.co2 * k)) { return Some(format!("per-m2 step B of service {} wrong", s)); } } else { return Some("per-m2 by-service entry missing".into()); } }
    let area_leaves = |x: &Balance| -> leaf::Leaves { leaf::of(x).into_iter().filter(|(p, _)| leaf::per_area(p)).collect() };
    if let Some(d) = leaf::diff(&area_leaves(b), &area_leaves(m), k as f64) { return Some(format!("per-m2 figure is not the absolute figure divided by the area {}: {}", ep.arearef, d)); }
    for (s, v) in &b.we.a_by_srv { if let Some(w) = m.we.a_by_srv.get(s) { if !(eq(w.nren, v.nren * k) && eq(w.ren, v.ren * k) && eq(w.co2, v.co2 * k)) { return Some(format!("per-m2 step A of service {} = {} wrong (absolute {} / area {})", s, w, v, ep.arearef)); } } else { return Some("per-m2 by-service entry missing".into()); } }
    None
}

/// C13 on one result (k_exp = 0): rer == ren/tot in [0,1]; nesting 0 <= onst <= nrb <= rer; and the (assumed) contract of
/// ren_onst_nrb: the two perimeter parts equal the sums the function documents
/// the executable reading of spec/rel_c14.rs::c14_shape (y = nren, co2) on the normalized regulatory factor set of a location
pub fn c14_factor_shape(loc: &str) -> Value {
    let w = crate::factors(loc);
    let el = Carrier::ELECTRICIDAD;
    let get = |s: Source, d: Dest, st: Step| w.wdata.iter().find(|f| f.carrier == el && f.source == s && f.dest == d && f.step == st).map(|f| (f.nren, f.co2)).unwrap_or((0.0, 0.0));
    let g = get(Source::RED, Dest::SUMINISTRO, Step::A);
    let mut bad: Vec<String> = vec![];
    if g.0 < 0.0 || g.1 < 0.0 { bad.push("negative grid factor".into()); }
    if get(Source::INSITU, Dest::SUMINISTRO, Step::A) != (0.0, 0.0) { bad.push("on-site electricity delivered with non-renewable energy or emissions".into()); }
    for d in [Dest::A_NEPB, Dest::A_RED] {
        if get(Source::INSITU, d, Step::A) != (0.0, 0.0) { bad.push(format!("export {:?} step A carries non-renewable energy or emissions", d)); }
        if get(Source::INSITU, d, Step::B) != g { bad.push(format!("export {:?} step B is not the grid factor", d)); }
    }
    // c14_ren_shape: renewable parts
    let getr = |s: Source, d: Dest, st: Step| w.wdata.iter().find(|f| f.carrier == el && f.source == s && f.dest == d && f.step == st).map(|f| f.ren).unwrap_or(0.0);
    let f1 = getr(Source::INSITU, Dest::SUMINISTRO, Step::A);
    if getr(Source::INSITU, Dest::A_NEPB, Step::A) != f1 || getr(Source::INSITU, Dest::A_RED, Step::A) != f1 { bad.push("on-site electricity exported at step A with another renewable factor than delivered".into()); }
    if getr(Source::RED, Dest::SUMINISTRO, Step::A) > f1 { bad.push("renewable part of the grid factor above the on-site factor".into()); }
    if w.wdata.iter().any(|f| f.source == Source::COGEN) { bad.push("a factor with source COGEN".into()); }
    if w.wdata.iter().any(|f| f.source == Source::RED && f.dest == Dest::SUMINISTRO && f.step == Step::A && (f.nren < 0.0 || f.co2 < 0.0)) { bad.push("a negative grid factor".into()); }
    json!({"hypothesis": "c14_factors + c14_ren_shape (premises of thm_c14_nren_co2_cgn and thm_c14_rer; c14_shape is the electricity part)", "loc": loc, "holds": bad.is_empty(), "violations": bad})
}
/// the executable reading of spec/rel_c13.rs::c13_factors on the normalized regulatory factor set of a location
pub fn c13_factor_shape(loc: &str) -> Value {
    let w = crate::factors(loc);
    let get = |c: Carrier, s: Source, d: Dest, st: Step| w.wdata.iter().find(|f| f.carrier == c && f.source == s && f.dest == d && f.step == st).map(|f| (f.ren, f.nren)).unwrap_or((0.0, 0.0));
    let mut bad: Vec<String> = vec![];
    if w.wdata.iter().any(|f| f.source == Source::COGEN) { bad.push("a factor with source COGEN".into()); }
    let carriers: std::collections::HashSet<Carrier> = w.wdata.iter().map(|f| f.carrier).collect();
    for c in carriers {
        let g = get(c, Source::RED, Dest::SUMINISTRO, Step::A);
        let i = get(c, Source::INSITU, Dest::SUMINISTRO, Step::A);
        if g.0 < 0.0 || g.1 < 0.0 { bad.push(format!("{}: negative grid factor", c)); }
        if i.0 < 0.0 || i.1 < 0.0 { bad.push(format!("{}: negative on-site delivery factor", c)); }
        for d in [Dest::A_NEPB, Dest::A_RED] {
            let e = get(c, Source::INSITU, d, Step::A);
            if e.0 > i.0 || e.1 > i.1 { bad.push(format!("{}: export factor {:?} step A above the delivery factor", c, d)); }
        }
    }
    json!({"hypothesis": "c13_factors (premise of thm_c13_range)", "loc": loc, "factors": w.wdata.len(), "holds": bad.is_empty(), "violations": bad})
}
pub fn c13(ep: &EnergyPerformance) -> Vec<(&'static str, String)> {
    let b = ep.balance.we.b;
    let tot = b.ren + b.nren;
    let mut out = vec![];
    if tot > 1e-3 {
        if !eq(ep.rer, b.ren / tot) { out.push(("C13.rer", format!("RER {} != ren/(ren+nren) = {}", ep.rer, b.ren / tot))); }
        else if !(ep.rer >= -1e-5 - leaf::noise() as f32 / tot && ep.rer <= 1.0 + 1e-5 + leaf::noise() as f32 / tot) { out.push(("C13.range", format!("RER {} outside [0,1] (ren {} nren {})", ep.rer, b.ren, b.nren))); }
        if ep.rer_onst < -1e-5 { out.push(("C13.onst_nonneg", format!("RER_onst {} negative", ep.rer_onst))); }
        if !le(ep.rer_onst, ep.rer_nrb) {
            // known finding D4 is about buildings that EXPORT on-site / cogenerated electricity: some step in which the declared production exceeds the declared
            // EPB electricity use (auxiliaries included, whatever service they were given), or load matching keeping part of the production out of the EPB uses.
            // A nesting failure of a building without such a surplus is something else and is reported as such.
            let n = ep.components.data.iter().map(|c| match c { Energy::Used(e) => e.values.len(), Energy::Prod(e) => e.values.len(), Energy::Aux(e) => e.values.len(), Energy::Out(e) => e.values.len() }).max().unwrap_or(0);
            let (mut pr, mut us) = (vec![0.0f32; n], vec![0.0f32; n]);
            for c in &ep.components.data {
                match c {
                    Energy::Prod(e) if e.source == ProdSource::EL_INSITU || e.source == ProdSource::EL_COGEN => for (i, v) in e.values.iter().enumerate() { pr[i] += v; },
                    Energy::Used(e) if e.carrier == Carrier::ELECTRICIDAD && e.service.is_epb() => for (i, v) in e.values.iter().enumerate() { us[i] += v; },
                    Energy::Aux(e) => for (i, v) in e.values.iter().enumerate() { us[i] += v; },
                    _ => {}
                }
            }
            let surplus = (0..n).any(|i| pr[i] > us[i] + tol(us[i]));
            let matching = ep.balance_cr.get(&Carrier::ELECTRICIDAD).map(|b| b.f_match.iter().any(|f| *f < 1.0 - 1e-6)).unwrap_or(false);
            let clause = if surplus || matching { "C13.nested" } else { "C13.nested_without_export" };
            out.push((clause, format!("perimeters not nested: RER_onst {} > RER_nrb {} (RER {})", ep.rer_onst, ep.rer_nrb, ep.rer)));
        }
        if !le(ep.rer_nrb, ep.rer) { out.push(("C13.nrb_le_rer", format!("RER_nrb {} > RER {}", ep.rer_nrb, ep.rer))); }
        // contract of ren_onst_nrb
        let el = ep.balance_cr.get(&Carrier::ELECTRICIDAD);
        let (onst_el, cgn_el, expa_el) = el.map(|c| (c.we.del_onst.ren, c.we.del_cgn.ren, c.we.exp_a.ren)).unwrap_or((0.0, 0.0, 0.0));
        let nrb_cr: f32 = ep.balance_cr.iter().filter(|(c, _)| c.is_nearby()).map(|(_, v)| v.we.b.ren).sum();
        let onst_cr: f32 = ep.balance_cr.iter().filter(|(c, _)| c.is_onsite()).map(|(_, v)| v.we.b.ren).sum();
        let want_onst = (onst_cr + onst_el) / tot;
        let want_nrb = (nrb_cr + onst_el + cgn_el - (1.0 - ep.k_exp) * expa_el) / tot;
        if !eq(ep.rer_onst, want_onst) { out.push(("C13.ren_parts_contract", format!("RER_onst {} but on-site carriers + on-site electricity give {}", ep.rer_onst, want_onst))); }
        if !eq(ep.rer_nrb, want_nrb) { out.push(("C13.ren_parts_contract", format!("RER_nrb {} but nearby carriers + on-site and cogenerated electricity - (1-k) step A exported give {}", ep.rer_nrb, want_nrb))); }
    } else if tot == 0.0 && ep.rer != 0.0 {
        out.push(("C13.zero_total", format!("RER {} with zero total", ep.rer)));
    }
    out
}

fn annual_sig(ep: &EnergyPerformance) -> Vec<f32> {
    let b = &ep.balance;
    vec![b.used.epus, b.used.nepus, b.prod.an, b.del.an, b.del.grid, b.exp.an, b.exp.grid, b.exp.nepus, b.we.a.ren, b.we.a.nren, b.we.a.co2, b.we.b.ren, b.we.b.nren, b.we.b.co2, if leaf::ratio_ok((b.we.b.ren + b.we.b.nren) as f64) { ep.rer } else { 0.0 }]
}
/// annual_sig plus the EPB use of every service (in the fixed order of SERVICES_ALL)
fn annual_sig2(ep: &EnergyPerformance) -> Vec<f32> {
    let mut v = annual_sig(ep);
    for s in Service::SERVICES_ALL { v.push(ep.balance.used.epus_by_srv.get(&s).copied().unwrap_or(0.0)); }
    v
}
/// the same components with the time steps permuted: how = 0 reversed, n > 0 rotated left by n
fn permute_text(t: &str, how: usize) -> String {
    t.lines().map(|l| {
        if l.trim_start().starts_with('#') { return l.to_string(); }
        let f: Vec<&str> = l.split(',').collect();
        let mut first_val = f.len();
        while first_val > 0 && f[first_val - 1].trim().parse::<f32>().is_ok() { first_val -= 1; }
        if first_val == 0 && f.len() > 1 { first_val = 1; } // a leading numeric id is not a value
        let mut vals: Vec<&str> = f[first_val..].to_vec();
        if vals.len() > 1 { if how == 0 { vals.reverse(); } else { let n = how % vals.len(); vals.rotate_left(n); } }
        f[..first_val].iter().cloned().chain(vals.into_iter()).collect::<Vec<_>>().join(",")
    }).collect::<Vec<_>>().join("\n")
}
/// every annual figure of two results (all fields of the serialized result that are not per-step series), compared by path
fn annual_diff(a: &EnergyPerformance, b: &EnergyPerformance) -> Option<String> {
    leaf::diff(&leaf::results(a, true), &leaf::results(b, true), 1.0)
}
/// the same components with every energy value multiplied by c (system ids, tags and metadata untouched)
fn scale_text(t: &str, c: f32) -> String {
    t.lines().map(|l| {
        if l.trim_start().starts_with('#') { return l.to_string(); }
        let f: Vec<&str> = l.split(',').collect();
        let mut first_val = f.len();
        while first_val > 0 && f[first_val - 1].trim().parse::<f32>().is_ok() { first_val -= 1; }
        if first_val == 0 && f.len() > 1 { first_val = 1; }
        f[..first_val].iter().map(|x| x.to_string()).chain(f[first_val..].iter().map(|x| format!("{}", x.trim().parse::<f32>().unwrap_or(0.0) * c))).collect::<Vec<_>>().join(",")
    }).collect::<Vec<_>>().join("\n")
}
fn sig_eq(a: &[f32], b: &[f32]) -> Option<usize> {
    // entry 14 is RER, reported as 0.0 by annual_sig when its denominator is within rounding noise on that side: compared only when meaningful on both
    a.iter().zip(b).enumerate().position(|(i, (x, y))| !(i == 14 && (*x == 0.0 || *y == 0.0)) && !eq(*x, *y))
}

fn tcase(text: &str, k: f32, area: f32, lm: bool) -> Case {
    Case { text: text.to_string(), loc: "PENINSULA", k_exp: k, area, lm }
}
fn case(steps: &[B], loc: &'static str, k: f32, area: f32, lm: bool) -> Case {
    Case { text: gen::text(steps), loc, k_exp: k, area, lm }
}

static SCALE: std::sync::atomic::AtomicUsize = std::sync::atomic::AtomicUsize::new(60);
pub fn set_scale(n: usize) { SCALE.store(n, std::sync::atomic::Ordering::Relaxed); }
pub fn scale() -> usize { SCALE.load(std::sync::atomic::Ordering::Relaxed) }

pub fn check(pid: &str, seed: u64) -> Value {
    if ["C02", "C05", "C06", "C07", "C08", "C10", "C16"].contains(&pid) {
        let mut rep = crate::preds2::Rep { evals: 0, nontrivial: 0, failures: vec![], samples: vec![] };
        let (domain, rule) = match pid {
            "C02" => { crate::preds2::c02(&mut rep, seed);
                // the per-service figures start from the auxiliary energy as Components::normalize assigns it: the sentences of the assignment that do not
                // fail on the pinned tree are evaluated here as well (a tree whose unit `components` can no longer be assembled is otherwise undecided for C02)
                {
                    let mut aux = crate::preds2::Rep { evals: 0, nontrivial: 0, failures: vec![], samples: vec![] };
                    crate::preds2::c06(&mut aux); crate::preds2::c06_special(&mut aux); crate::preds2::c06_refused_or_counted(&mut aux);
                    // ... and from the productions the completion adds for ambient / solar energy: the sentences of the completion as well
                    {
                        let mut cm = crate::preds2::Rep { evals: 0, nontrivial: 0, failures: vec![], samples: vec![] };
                        crate::preds2::c05(&mut cm); crate::preds2::c05_special(&mut cm);
                        rep.evals += cm.evals;
                        for f in cm.failures {
                            let cl = f["clause"].as_str().unwrap_or("").to_string();
                            if ["C05.exact_completion", "C05.declared_kept", "C05.nothing_else", "C05.special"].contains(&cl.as_str()) { let mut g = f.clone(); g["clause"] = json!(format!("C02.completion({})", cl)); rep.failures.push(g); }
                        }
                    }
                    rep.evals += aux.evals;
                    for f in aux.failures {
                        let cl = f["clause"].as_str().unwrap_or("").to_string();
                        if ["C06.proportional", "C06.conserved", "C06.single_service", "C06.counted_in_balance", "C06.other_ids_unchanged", "C06.share_nonneg"].contains(&cl.as_str()) {
                            let mut g = f.clone(); g["clause"] = json!(format!("C02.aux_assignment({})", cl));
                            rep.failures.push(g);
                        }
                    }
                }
                ("the hand-written buildings, the seeded buildings over the whole vocabulary of the format (60 quick / 600 thorough), every seventh enumerated single-step building and the multi-step ones x the four regulatory factor sets and two user files whose step A/B, grid / non-EPB destination and per-source factors all differ (every set for the first 20 buildings, two of the six in turn for the others) x k_exp in {0, 0.3, 1} x both load-matching modes x area 1 or 37.5; compared: every per-carrier, per-service, per-source and whole-building figure, per step and per period, and RER, against an independent f64 evaluation of the equations (replay/src/refimpl.rs)", "every evaluation is a distinct (building, factor set, k_exp, mode) tuple; it is non-trivial when the building exports energy") }
            "C05" => { crate::preds2::c05(&mut rep); crate::preds2::c05_special(&mut rep); crate::preds2::c05_outputs(&mut rep); crate::preds2::c05_idempotent(&mut rep, seed); ("EAMBIENTE / TERMOSOLAR x two systems with ids from {-1,0,1} (also the same id twice) x use in {0, 2, (3,1)} x declared production in {none, 1, 5, (0,4)} x one use, two EPB uses, or an EPB and a non-EPB use per system; 2 steps; + hand-written files (interleaved systems, repeated demand lines, declared production carrying the comment of the automatic completion, outputs of either sign and of negative-id systems)", "every generated file has ambient / solar components") }
            "C06" => { crate::preds2::c06(&mut rep); crate::preds2::c06_special(&mut rep); crate::preds2::c06_refused_or_counted(&mut rep); ("system 1 with services {CAL},{CAL,ACS},{CAL,REF},{CAL,ACS,REF} x outputs from {30,10,-10,(30,0),(10,0),(0,20)} x AUX in {4,(4,2),(0,3)} x with/without a second single-service system with AUX x electricity otherwise present or absent; + hand-written systems (several AUX lines, negative system ids, cogeneration-only systems)", "multi-service systems are the non-trivial cases") }
            "C16" => { crate::preds2::c16(&mut rep, seed); ("the repository's test_data component files, the special buildings of the other predicates, 21 hand-written edge shapes (AUX without consumption, DHW demand with biomass and PV, empty / short / non-numeric / non-finite fields, different lengths) and 60 seeded token- or line-level corruptions (drop, duplicate, swap, replace) of each of the first 20 files; each parsed, evaluated with the full and the stripped factor set in both load-matching modes and passed to the DHW renewable fraction, under catch_unwind; + long lines of unknown kind with multi-byte text at every byte offset 45..115, metadata accessors, value parsers and corrupted factor files", "an input is non-trivial when it parses and at least one evaluation succeeds") }
            "C10" => { crate::preds2::c10(&mut rep, seed); ("7 base files (every figure of the serialized result compared by path) x {6 random line orders, comments/blank/header/BOM/whitespace and their combinations, ids renumbered, id 0 omitted, one component split in two lines} + 60 repeated evaluations each", "every rewriting is non-trivial") }
            _ => { crate::preds2::c07(&mut rep, seed); ("factor files over every non-empty subset of {ELECTRICIDAD,GASNATURAL,BIOMASA,EAMBIENTE,RED1} with pairwise distinct marker values x 8 sets of user-given export factors x user RED1/RED2 {none, red1, both}; then up to 12 buildings over the carriers of the set (PV surplus, cogeneration with one or two fuels, non-EPB uses of electricity / ambient heat / solar thermal, outputs and auxiliaries) x (k_exp, load matching) in {(0,off),(0.5,on)}, each with the full and the stripped set; + hand-written buildings with the regulatory sets and component sets built in code with an unassigned auxiliary component", "every accepted factor file is non-trivial") }
        };
        let fails: Vec<Value> = rep.failures.into_iter().filter(|f| { let c = f["clause"].as_str().unwrap_or(""); match pid { "C07" => c.starts_with("C07"), "C08" => c.starts_with("C08"), _ => true } }).collect();
        return json!({"property": pid, "seed": seed, "evaluations": rep.evals, "distinct_nontrivial": rep.nontrivial, "exhaustive": (["C06", "C07", "C08"].contains(&pid)), "domain": domain, "rule": rule, "failures": fails, "samples": rep.samples});
    }
    let singles = gen::singles();
    let multis = gen::multis(seed, scale());
    let mut all: Vec<Vec<B>> = singles.iter().map(|b| vec![*b]).collect();
    all.extend(multis.iter().cloned());
    let mut evals = 0usize;
    let mut nontrivial = 0usize;
    let mut failures: Vec<Value> = vec![];
    let mut known: Vec<Value> = vec![];
    let mut samples: Vec<Value> = vec![];
    if pid == "C13" {
        // hypothesis witness of thm_c13_range (unit rel): the shape c13_factors evaluated on the real regulatory tables - recorded, never a verdict
        for loc in ["PENINSULA", "BALEARES", "CANARIAS", "CEUTAMELILLA"] { samples.push(c13_factor_shape(loc)); }
    }
    if pid == "C14" {
        // hypothesis witness of thm_c14_nren_co2 (unit rel): c14_shape evaluated on the real regulatory tables - recorded, never a verdict
        for loc in ["PENINSULA", "BALEARES", "CANARIAS", "CEUTAMELILLA"] { samples.push(c14_factor_shape(loc)); }
    }
    let fail = |failures: &mut Vec<Value>, steps: &[B], k: f32, area: f32, lm: bool, what: String| {
        let clause = pid.to_string();
        if failures.iter().filter(|f| f["clause"] == clause.as_str()).count() < 4 {
            failures.push(json!({"clause": clause, "components": gen::text(steps), "loc": "PENINSULA", "k_exp": k, "area": area, "load_matching": lm, "what": what}));
        }
    };
    // hand-written special buildings (two cogeneration units, PV surplus to non-EPB uses, district networks ...)
    let mut texts: Vec<String> = gen::extras().iter().map(|s| s.to_string()).collect();
    texts.extend(gen::random_texts(seed, scale()));
    for t in texts.iter().map(|s| s.as_str()) {
        for lm in [false, true] {
            leaf::reset_noise();
            match pid {
                "C01" | "C04" | "C13" => {
                  if pid == "C04" {
                      // the three renewable shares do not depend on the reference area
                      if let Ok(e1) = run(&tcase(t, 0.5, 1.0, lm)) {
                          for area in [0.5f32, 100.0, 217.4, 20000.0, 1.0e7] {
                              evals += 1;
                              if let Ok(e) = run(&tcase(t, 0.5, area, lm)) {
                                  let den = (e1.balance.we.b.ren + e1.balance.we.b.nren).abs();
                                  let tol = |x: f32| 2e-4 * x.abs().max(1.0) + leaf::noise() as f32 / den.max(1e-6);
                                  for (name, x, y) in [("RER", e1.rer, e.rer), ("RER_nrb", e1.rer_nrb, e.rer_nrb), ("RER_onst", e1.rer_onst, e.rer_onst)] {
                                      if leaf::ratio_ok(den as f64) && !((x - y).abs() <= tol(x)) { failures.push(json!({"clause": "C04", "components": t, "k_exp": 0.5, "area": area, "load_matching": lm, "what": format!("{} is {} with area 1 and {} with area {}", name, x, y, area)})); }
                                  }
                              }
                          }
                      }
                  }
                  for (k, area) in (if pid == "C04" { vec![(0.5f32, 2.5f32), (1.0, 12.345), (0.25, 0.004), (0.0, 0.015)] } else if pid == "C13" { vec![(0.0f32, 1.0f32), (0.0, 2.5), (0.0, 40.0)] } else { vec![(0.0, 1.0)] }) {
                    evals += 1;
                    if let Ok(ep) = run(&tcase(t, k, area, lm)) {
                        nontrivial += 1;
                        match pid {
                            "C01" => {
                                if let Some(w) = c01(&ep) { failures.push(json!({"clause": "C01", "components": t, "k_exp": k, "load_matching": lm, "what": w})); }
                                // the same building passed as a component set built in code, without the automatic completion
                                if let Ok(ep2) = crate::run_uncompleted(&tcase(t, k, area, lm)) {
                                    evals += 1;
                                    if let Some(w) = c01(&ep2) { failures.push(json!({"clause": "C01.built_in_code", "components": format!("{}\n(passed as a component set built in code: the productions added by the automatic completion removed)", t), "k_exp": k, "load_matching": lm, "what": w})); }
                                }
                            }
                            "C04" => if let Some(w) = c04(&ep) { failures.push(json!({"clause": "C04", "components": t, "k_exp": k, "area": area, "load_matching": lm, "what": w})); },
                            _ => for (cl, w) in c13(&ep) { if known.iter().filter(|f| f["clause"] == cl).count() < 3 { known.push(json!({"clause": cl, "components": t, "k_exp": k, "load_matching": lm, "what": w})); } },
                        }
                    }
                  }
                }
                "C03" => {
                    let mut v = vec![];
                    for k in [0.0f32, 0.005, 0.125, 0.25, 1.0 / 3.0, 0.5, 0.745, 1.0] { evals += 1; if let Ok(ep) = run(&tcase(t, k, 1.0, lm)) { v.push((k, ep)); } }
                    if v.len() == 8 { nontrivial += 1; if let Some(w) = c03(&v) { failures.push(json!({"clause": "C03", "components": t, "load_matching": lm, "what": w})); } }
                }
                "C14" => {
                    let steps_n = t.parse::<cteepbd::Components>().map(|c| c.num_steps()).unwrap_or(1).max(1);
                    for k in [0.0f32, 0.5, 1.0] {
                        evals += 1;
                      for loc in ["PENINSULA", "BALEARES", "CANARIAS", "CEUTAMELILLA"] {
                        let tc = |text: &str| Case { text: text.to_string(), loc, k_exp: k, area: 1.0, lm };
                        let e0 = match run(&tc(t)) { Ok(e) => e, Err(_) => continue };
                        nontrivial += 1;
                        // the id under which the building's cogenerated electricity is declared ("4," or "" for files without ids), if any
                        let cgn_id: Option<String> = t.lines().find(|l| l.contains("PRODUCCION,EL_COGEN")).map(|l| l[..l.find("PRODUCCION").unwrap_or(0)].to_string());
                        let mut variants: Vec<(f32, String)> = vec![];
                        for (d, pos) in [(0.5f32, 0usize), (5.0, 0), (10.0, 1), (10.0, 2), (10000.0, 0)] {
                            if pos >= steps_n { continue; }
                            let vals = (0..steps_n).map(|i| if i == pos { format!("{}", d) } else { "0".to_string() }).collect::<Vec<_>>().join(",");
                            variants.push((d, format!("{}\n9,PRODUCCION,EL_INSITU,{}", t, vals)));
                            // the same increment declared under the system id of the cogenerator (files without ids put everything under system 0)
                            if let Some(id) = &cgn_id { if d != 0.5 { variants.push((d, format!("{}\n{}PRODUCCION,EL_INSITU,{}", t, id, vals))); } }
                        }
                        // the declared on-site electricity production doubled
                        if t.contains("PRODUCCION,EL_INSITU") {
                            let doubled: Vec<String> = t.lines().map(|l| if l.contains("PRODUCCION,EL_INSITU") {
                                let i = l.find("EL_INSITU,").unwrap() + "EL_INSITU,".len();
                                let (head, tail) = l.split_at(i);
                                let (vals, comment) = match tail.find('#') { Some(j) => (&tail[..j], &tail[j..]), None => (tail, "") };
                                format!("{}{}{}", head, vals.split(',').map(|v| v.trim().parse::<f32>().map(|x| format!("{}", 2.0 * x)).unwrap_or(v.to_string())).collect::<Vec<_>>().join(","), comment)
                            } else { l.to_string() }).collect();
                            variants.push((-2.0, doubled.join("\n")));
                            // ... or a second field identical to the first one, declared on the next line under the same id
                            let twice: Vec<String> = t.lines().flat_map(|l| if l.contains("PRODUCCION,EL_INSITU") { vec![l.to_string(), l.to_string()] } else { vec![l.to_string()] }).collect();
                            variants.push((-3.0, twice.join("\n")));
                        }
                        // two fields under one id, the second one kWh smaller in its first producing step; then raised to the size of the first (two identical lines)
                        let mut own_base: Option<(String, String)> = None;
                        if let Some(l) = t.lines().find(|l| l.contains("PRODUCCION,EL_INSITU") && !l.contains('#')) {
                            let i = l.find("EL_INSITU,").unwrap() + "EL_INSITU,".len();
                            let (head, tail) = l.split_at(i);
                            let vals: Vec<f32> = tail.split(',').filter_map(|v| v.trim().parse::<f32>().ok()).collect();
                            if let Some(p) = vals.iter().position(|v| *v >= 1.0) {
                                let mut less = vals.clone(); less[p] -= 1.0;
                                let fmt = |v: &Vec<f32>| v.iter().map(|x| format!("{}", x)).collect::<Vec<_>>().join(",");
                                let smaller = format!("{}{}", head, fmt(&less));
                                let base2: Vec<String> = t.lines().flat_map(|x| if x == l { vec![x.to_string(), smaller.clone()] } else { vec![x.to_string()] }).collect();
                                let more2: Vec<String> = t.lines().flat_map(|x| if x == l { vec![x.to_string(), x.to_string()] } else { vec![x.to_string()] }).collect();
                                own_base = Some((base2.join("\n"), more2.join("\n")));
                            }
                        }
                        let e0_main = e0;
                        let mut runs: Vec<(f32, cteepbd::types::EnergyPerformance, String)> = vec![];
                        if let Some((b2, m2)) = own_base { if let Ok(eb) = run(&tc(&b2)) { runs.push((1.0, eb, m2)); } }
                        for (d, more) in variants { runs.push((d, e0_main.clone(), more)); }
                        for (d, e0, more) in runs {
                            evals += 1;
                            if let Ok(e1) = run(&tc(&more)) {
                                let (a0, a1, b0, b1) = (e0.balance.we.a, e1.balance.we.a, e0.balance.we.b, e1.balance.we.b);
                                let bio = t.contains("COGEN,BIOMASA");
                                if !le(a1.nren, a0.nren) || !le(b1.nren, b0.nren) || !le(a1.co2, a0.co2) || !le(b1.co2, b0.co2) || !le(e1.balance.del.grid, e0.balance.del.grid) {
                                    failures.push(json!({"clause": "C14.nren_co2_grid", "components": t, "loc": loc, "k_exp": k, "load_matching": lm, "what": format!("adding {} kWh of on-site electricity raises nren / CO2 / grid delivery: B.nren {} -> {}, B.co2 {} -> {}, grid {} -> {}", d, b0.nren, b1.nren, b0.co2, b1.co2, e0.balance.del.grid, e1.balance.del.grid)}));
                                }
                                if k == 0.0 && b0.ren + b0.nren > 1e-3 && b1.ren + b1.nren > 1e-3 && !ratio_le(e0.rer, e1.rer, (b0.ren + b0.nren).min(b1.ren + b1.nren)) {
                                    let cl = if bio { "C14.rer.renewable_cogeneration" } else { "C14.rer" };
                                    if failures.iter().filter(|f| f["clause"] == cl).count() < 3 {
                                        failures.push(json!({"clause": cl, "components": t, "loc": loc, "k_exp": k, "load_matching": lm, "what": format!("{}: adding {} kWh of on-site electricity lowers RER {} -> {}", loc, d, e0.rer, e1.rer)}));
                                    }
                                }
                            }
                        }
                      }
                    }
                }
                "C11" => {
                    // area and metadata must not change anything but the per-m2 results (text cases)
                    evals += 1;
                    if let Ok(e0) = run(&tcase(t, 0.5, 2.0, lm)) {
                        nontrivial += 1;
                        // every energy multiplied by c: every figure of the result scales, shares and matching factors stay
                        // (upwards only: the property speaks of values that are zero or at least 0.01 kWh, and the text cases contain 0.01)
                        for c in [1024.0f32, 8.0] {
                            evals += 1;
                            if let Ok(e) = run(&tcase(&scale_text(t, c), 0.5, 2.0, lm)) {
                                let unit = |p: &String| p.starts_with("rer") || p.contains(".f_match[");
                                let (l0, l1) = (leaf::results(&e0, false), leaf::results(&e, false));
                                let pick = |l: &leaf::Leaves, u: bool| -> leaf::Leaves { l.iter().filter(|(p, _)| unit(p) == u).map(|(p, v)| (p.clone(), *v)).collect() };
                                // renewable shares only where they are well conditioned on both sides
                                let well = |e: &EnergyPerformance| { let b = e.balance.we.b; (b.ren + b.nren) > 0.05 * (b.ren.abs() + b.nren.abs()) };
                                let units_differ = if well(&e0) && well(&e) { leaf::diff(&pick(&l0, true), &pick(&l1, true), 1.0) } else { None };
                                if let Some(d) = leaf::diff(&pick(&l0, false), &pick(&l1, false), c as f64).or(units_differ) {
                                    failures.push(json!({"clause": "C11", "components": t, "load_matching": lm, "what": format!("multiplying every energy by {}: {}", c, d)}));
                                }
                            }
                        }
                        for c in [0.5f32, 8.0, 100.0] {
                            evals += 1;
                            if let Ok(e) = run(&tcase(t, 0.5, 2.0 * c, lm)) {
                                if !eq(e.balance_m2.we.b.nren * c, e0.balance_m2.we.b.nren) || !eq(e.balance.we.b.nren, e0.balance.we.b.nren) || !same_ratio(e.rer, e0.rer) || !same_ratio(e.rer_nrb, e0.rer_nrb) || !same_ratio(e.rer_onst, e0.rer_onst) {
                                    failures.push(json!({"clause": "C11", "components": t, "load_matching": lm, "what": format!("multiplying the area by {} does not divide the per-m2 result by it (or changes something else)", c)}));
                                } else {
                                    // every figure by path: the per-m2 balance divided by c, everything else unchanged
                                    let (l0, l1) = (leaf::results(&e0, false), leaf::results(&e, false));
                                    let m2 = |l: &leaf::Leaves, want: bool| -> leaf::Leaves { l.iter().filter(|(p, _)| p.starts_with("balance_m2.") == want && !p.starts_with("rer")).map(|(p, v)| (p.clone(), *v)).collect() };
                                    if let Some(d) = leaf::diff(&m2(&l1, true), &m2(&l0, true), c as f64).or(leaf::diff(&m2(&l0, false), &m2(&l1, false), 1.0)) {
                                        failures.push(json!({"clause": "C11", "components": t, "load_matching": lm, "what": format!("multiplying the area by {}: a per-m2 figure is not divided by it or another figure changes: {}", c, d)}));
                                    }
                                }
                            }
                        }
                    }
                }
                "C09" => {
                    for k in [0.0f32, 1.0] {
                        evals += 1;
                        let base_ep = match run(&tcase(t, k, 1.0, lm)) { Ok(e) => e, Err(_) => continue };
                        let base = annual_sig2(&base_ep);
                        nontrivial += 1;
                        for (name, how) in [("reversed", 0usize), ("rotated by one", 1), ("rotated by two", 2)] {
                            let var = permute_text(t, how);
                            if var == t { continue; }
                            evals += 1;
                            if let Ok(e) = run(&tcase(&var, k, 1.0, lm)) {
                                let sg = annual_sig2(&e);
                                if let Some(p) = sig_eq(&base, &sg) { failures.push(json!({"clause": "C09", "components": t, "k_exp": k, "load_matching": lm, "what": format!("annual result #{} changes when the steps are {}: {} vs {}", p, name, base[p], sg[p])})); }
                                else if let Some(d) = annual_diff(&base_ep, &e) { failures.push(json!({"clause": "C09", "components": t, "k_exp": k, "load_matching": lm, "what": format!("an annual figure changes when the steps are {}: {}", name, d)})); }
                            }
                        }
                    }
                }
                "C12" => {
                    if lm { continue; }
                    evals += 2;
                    if let (Ok(a), Ok(b)) = (run(&tcase(t, 0.0, 1.0, true)), run(&tcase(t, 0.0, 1.0, false))) {
                        nontrivial += 1;
                        if let Some(w) = c12(&a, &b) { failures.push(json!({"clause": "C12", "components": t, "what": w})); }
                        // "the on-site production of that step": every PRODUCCION line of the file, read here line by line, is in the balance
                        for (tag, src) in [("EL_INSITU", ProdSource::EL_INSITU), ("EL_COGEN", ProdSource::EL_COGEN)] {
                            let mut want: Vec<f32> = vec![];
                            for l in t.lines() {
                                let l = l.split('#').next().unwrap_or("");
                                let f: Vec<&str> = l.split(',').map(|x| x.trim()).collect();
                                if let Some(i) = f.iter().position(|x| *x == "PRODUCCION") {
                                    if f.get(i + 1) == Some(&tag) {
                                        for (j, v) in f[i + 2..].iter().enumerate() { if let Ok(x) = v.parse::<f32>() { if want.len() <= j { want.resize(j + 1, 0.0); } want[j] += x; } }
                                    }
                                }
                            }
                            if want.iter().all(|v| *v == 0.0) { continue; }
                            let got = b.balance_cr.get(&Carrier::ELECTRICIDAD).and_then(|x| x.prod.by_src_t.get(&src)).cloned().unwrap_or_default();
                            if got.len() != want.len() || got.iter().zip(want.iter()).any(|(g, w)| !eq(*g, *w)) {
                                failures.push(json!({"clause": "C12", "components": t, "what": format!("the file declares {} production {:?}, the electricity balance works with {:?}", tag, want, got)}));
                            }
                        }
                    }
                }
                _ => {}
            }
        }
    }
    if pid == "C09" {
        // series whose length is neither small nor a multiple of 24: rotation of 30 steps, 13 steps split in 4 (52) and in 3 (39)
        let col = |n: usize, f: &dyn Fn(usize) -> f32| (0..n).map(|i| format!("{}", f(i))).collect::<Vec<_>>().join(",");
        let build = |n: usize, scale: f32, rot: usize, rep: usize| -> String {
            let idx = move |i: usize| ((i / rep) + rot) % (n / rep);
            format!("1,CONSUMO,CAL,GASNATURAL,{}\n2,CONSUMO,ACS,ELECTRICIDAD,{}\n2,CONSUMO,ACS,EAMBIENTE,{}\n3,PRODUCCION,EL_INSITU,{}\n4,CONSUMO,NEPB,ELECTRICIDAD,{}",
                col(n, &|i| scale * (36.0 + (idx(i) % 5) as f32)), col(n, &|i| scale * (8.0 + (idx(i) % 3) as f32)), col(n, &|i| scale * (20.0 + (idx(i) % 4) as f32)), col(n, &|i| scale * ((idx(i) % 7) as f32 * 3.0)), col(n, &|i| scale * 1.5))
        };
        // twelve months against the same building in 8760 hourly steps: a small solar thermal use without declared production (1.1-3.6 kWh a month,
        // 1.5-5 Wh an hour) and a heat pump whose declared ambient production covers 97 % of its use
        let months = |vals: &[f32], m: usize| -> String { vals.iter().flat_map(|v| std::iter::repeat(format!("{}", v / m as f32)).take(m)).collect::<Vec<_>>().join(",") };
        let sol = [1.1f32, 1.5, 2.2, 2.9, 3.3, 3.6, 3.6, 3.4, 2.8, 2.0, 1.3, 1.1];
        let hp_el = [100.0f32, 90.0, 70.0, 50.0, 20.0, 0.0, 0.0, 0.0, 20.0, 50.0, 80.0, 100.0];
        let monthly = |m: usize| -> String {
            format!("1,CONSUMO,ACS,TERMOSOLAR,{}\n2,CONSUMO,CAL,ELECTRICIDAD,{}\n2,CONSUMO,CAL,EAMBIENTE,{}\n2,PRODUCCION,EAMBIENTE,{}\n3,CONSUMO,ILU,ELECTRICIDAD,{}",
                months(&sol, m), months(&hp_el, m), months(&hp_el.map(|v| v * 2.0), m), months(&hp_el.map(|v| v * 1.94), m), months(&[30.0; 12], m))
        };
        // PV a little above the EPB electricity use from April to September (0.5-0.7 kWh a month, below 1 Wh an hour), a small non-EPB use
        let pv_use = [30.0f32, 30.0, 30.0, 30.0, 30.0, 30.0, 30.0, 30.0, 30.0, 30.0, 30.0, 30.0];
        let pv = [10.0f32, 14.0, 22.0, 30.5, 30.6, 30.7, 30.7, 30.6, 30.5, 20.0, 12.0, 9.0];
        let small_surplus = |m: usize| -> String { format!("1,CONSUMO,ILU,ELECTRICIDAD,{}\n2,PRODUCCION,EL_INSITU,{}\n3,CONSUMO,NEPB,ELECTRICIDAD,{}\n4,CONSUMO,CAL,GASNATURAL,{}", months(&pv_use, m), months(&pv, m), months(&[0.3; 12], m), months(&[50.0; 12], m)) };
        // a gas cogenerator that runs in the cold months and exports most of its electricity, each month split in 128 (1536 steps: every step
        // holds less than a thousandth of the annual cogeneration)
        let chp_el = [240.0f32, 220.0, 180.0, 90.0, 0.0, 0.0, 0.0, 0.0, 60.0, 150.0, 200.0, 240.0];
        let cogen = |m: usize| -> String { format!("1,CONSUMO,COGEN,GASNATURAL,{}\n1,PRODUCCION,EL_COGEN,{}\n2,CONSUMO,ILU,ELECTRICIDAD,{}\n3,CONSUMO,CAL,GASNATURAL,{}",
            months(&chp_el.map(|v| v * 2.5), m), months(&chp_el, m), months(&[64.0; 12], m), months(&chp_el.map(|v| v * 1.5), m)) };
        // a heat pump for heating and hot water whose declared outputs are a few Wh a month (a file in MWh, say), with auxiliaries and PV: the split of the
        // auxiliaries follows the RATIO of the outputs, whatever their size
        let q_cal = [0.0016f32, 0.0015, 0.0013, 0.0011, 0.0010, 0.0010, 0.0010, 0.0010, 0.0011, 0.0013, 0.0015, 0.0016];
        let q_acs = [0.0008f32, 0.0007, 0.0006, 0.0005, 0.0004, 0.0004, 0.0004, 0.0004, 0.0005, 0.0006, 0.0007, 0.0008];
        let aux_hp = |m: usize| -> String { format!("1,CONSUMO,CAL,ELECTRICIDAD,{}\n1,CONSUMO,ACS,ELECTRICIDAD,{}\n1,SALIDA,CAL,{}\n1,SALIDA,ACS,{}\n1,AUX,{}\n2,PRODUCCION,EL_INSITU,{}",
            months(&hp_el.map(|v| v * 0.2), m), months(&[4.0; 12], m), months(&q_cal, m), months(&q_acs, m), months(&[3.0; 12], m), months(&pv.map(|v| v * 0.5), m)) };
        // a micro-cogeneration unit (0.3-0.5 kWh of electricity a month, below 1 Wh an hour) next to PV, most of the electricity exported
        let mchp = [0.5f32, 0.5, 0.4, 0.3, 0.3, 0.3, 0.3, 0.3, 0.3, 0.4, 0.5, 0.5];
        let micro = |m: usize| -> String { format!("1,CONSUMO,COGEN,GASNATURAL,{}\n1,PRODUCCION,EL_COGEN,{}\n2,CONSUMO,ILU,ELECTRICIDAD,{}\n3,PRODUCCION,EL_INSITU,{}\n4,CONSUMO,CAL,GASNATURAL,{}",
            months(&mchp.map(|v| v * 3.0), m), months(&mchp, m), months(&[0.2; 12], m), months(&[2.0, 3.0, 4.0, 5.0, 6.0, 7.0, 7.0, 6.0, 5.0, 4.0, 3.0, 2.0], m), months(&[50.0; 12], m)) };
        for lm in [false, true] {
            leaf::reset_noise();
            for (name, base, var) in [("12 months, each split in 730 (8760 hourly steps), micro-cogeneration below 1 Wh an hour next to PV", micro(1), micro(730)),
                                      ("12 months, each split in 2, heat pump with outputs of a few Wh a month and auxiliaries", aux_hp(1), aux_hp(2)), ("12 months, each split in 8, heat pump with outputs of a few Wh a month and auxiliaries", aux_hp(1), aux_hp(8)),
                                      ("12 months, each split in 128 (1536 steps), gas cogeneration exporting electricity", cogen(1), cogen(128)), ("12 months, each split in 730 (8760 hourly steps), PV surplus of less than 1 Wh an hour", small_surplus(1), small_surplus(730)), ("12 months, each split in 730 (8760 hourly steps), small solar thermal use", monthly(1), monthly(730)), ("365 daily steps, each split in 24 (8760 hourly steps)", build(365, 1.0, 0, 1), build(8760, 1.0 / 24.0, 0, 24)), ("30 steps rotated by 7", build(30, 1.0, 0, 1), build(30, 1.0, 7, 1)), ("13 steps, each split in 4", build(13, 1.0, 0, 1), build(52, 0.25, 0, 4)), ("13 steps, each split in 3", build(13, 1.0, 0, 1), build(39, 1.0 / 3.0, 0, 3))] {
                evals += 2;
                leaf::reset_noise();
                if let (Ok(a), Ok(b)) = (run(&tcase(&base, 0.5, 1.0, lm)), run(&tcase(&var, 0.5, 1.0, lm))) {
                    nontrivial += 1;
                    let (sa, sb) = (annual_sig2(&a), annual_sig2(&b));
                    if let Some(p) = sig_eq(&sa, &sb) { failures.push(json!({"clause": "C09", "components": name, "load_matching": lm, "what": format!("{}: annual result #{} = {} instead of {}", name, p, sb[p], sa[p])})); }
                    else if let Some(d) = annual_diff(&a, &b) { failures.push(json!({"clause": "C09", "components": name, "load_matching": lm, "what": format!("{}: an annual figure differs: {}", name, d)})); }
                } else { failures.push(json!({"clause": "C09", "components": name, "what": "evaluation failed"})); }
            }
        }
    }
    if pid == "C01" {
        // "EPB use" of the electricity balance includes every declared kWh of auxiliary energy (the counted-in-balance sentences of the auxiliary assignment)
        let mut aux = crate::preds2::Rep { evals: 0, nontrivial: 0, failures: vec![], samples: vec![] };
        crate::preds2::c06_special(&mut aux); crate::preds2::c06_refused_or_counted(&mut aux);
        evals += aux.evals;
        for f in aux.failures { if f["clause"] == "C06.counted_in_balance" { let mut g = f.clone(); g["clause"] = json!("C01.epb_use_includes_auxiliaries(C06.counted_in_balance)"); failures.push(g); } }
        leaf::reset_noise();
        // components built in code with series of different lengths (the text parser refuses them): either no result or a result that still balances
        
        let mk = |u: Vec<f32>, p: Vec<f32>, n: Vec<f32>| cteepbd::Components { meta: vec![], needs: Default::default(), data: vec![
            Energy::Used(EUsed { id: 1, carrier: Carrier::ELECTRICIDAD, service: Service::ACS, values: u, comment: String::new() }),
            Energy::Prod(EProd { id: 2, source: ProdSource::EL_INSITU, values: p, comment: String::new() }),
            Energy::Used(EUsed { id: 3, carrier: Carrier::ELECTRICIDAD, service: Service::NEPB, values: n, comment: String::new() }) ] };
        let prev = std::panic::take_hook();
        std::panic::set_hook(Box::new(|_| {}));
        for (u, p, n) in [(vec![10.0, 10.0, 10.0], vec![4.0, 4.0], vec![1.0, 1.0, 1.0]), (vec![10.0], vec![20.0, 20.0, 20.0], vec![2.0, 2.0, 2.0]), (vec![5.0, 5.0], vec![9.0, 9.0], vec![1.0])] {
            evals += 1;
            let comps = mk(u.clone(), p.clone(), n.clone());
            let w = crate::factors("PENINSULA");
            let r = std::panic::catch_unwind(move || cteepbd::energy_performance(&comps, &w, 0.0, 1.0, false));
            if let Ok(Ok(ep)) = r {
                nontrivial += 1;
                let (su, sp): (f32, f32) = (u.iter().sum(), p.iter().sum());
                for b in ep.balance_cr.values() {
                    if !(eq(b.used.epus_an, su) && eq(b.prod.an, sp) && eq(b.used.epus_an, b.prod.epus_an + b.del.grid_an) && eq(b.prod.an, b.prod.epus_an + b.exp.an)) {
                        failures.push(json!({"clause": "C01.unequal_lengths", "components": format!("Used {:?} / Prod {:?} / nEPB {:?} built in code", u, p, n), "what": format!("a result is returned and it does not balance: use {} (declared {}), production {} (declared {}), produced-and-used {}, grid {}, exported {}", b.used.epus_an, su, b.prod.an, sp, b.prod.epus_an, b.del.grid_an, b.exp.an)}));
                    }
                }
            }
        }
        std::panic::set_hook(prev);
    }
    if pid == "C03" {
        // "a building that exports nothing": whether it exports depends on the EPB electricity use, auxiliaries included, as the file declares it -
        // the conservation / sign sentences of the auxiliary assignment
        let mut aux = crate::preds2::Rep { evals: 0, nontrivial: 0, failures: vec![], samples: vec![] };
        crate::preds2::c06(&mut aux); crate::preds2::c06_special(&mut aux);
        evals += aux.evals;
        for f in aux.failures { let cl = f["clause"].as_str().unwrap_or("").to_string(); if cl == "C06.conserved" || cl == "C06.share_nonneg" || cl == "C06.counted_in_balance" { let mut g = f.clone(); g["clause"] = json!(format!("C03.exports_follow_the_declared_use({})", cl)); failures.push(g); } }
    }
    if pid == "C12" {
        // "the EPB use" the two allocations are compared with is the use the file declares, auxiliaries included: the conservation sentences of the auxiliary assignment
        let mut aux = crate::preds2::Rep { evals: 0, nontrivial: 0, failures: vec![], samples: vec![] };
        crate::preds2::c06(&mut aux); crate::preds2::c06_special(&mut aux);
        evals += aux.evals;
        for f in aux.failures { let cl = f["clause"].as_str().unwrap_or("").to_string(); if cl == "C06.conserved" || cl == "C06.counted_in_balance" { let mut g = f.clone(); g["clause"] = json!(format!("C12.epb_use_is_the_declared_use({})", cl)); failures.push(g); } }
        leaf::reset_noise();
        // an hourly series (8760 steps) with on-site and cogenerated electricity
        let n = 8760usize;
        let col = |f: &dyn Fn(usize) -> f32| (0..n).map(|i| format!("{}", f(i))).collect::<Vec<_>>().join(",");
        let hourly = format!("1,CONSUMO,ILU,ELECTRICIDAD,{}\n2,PRODUCCION,EL_INSITU,{}\n3,PRODUCCION,EL_COGEN,{}\n3,CONSUMO,COGEN,GASNATURAL,{}\n4,CONSUMO,NEPB,ELECTRICIDAD,{}",
            col(&|i| 3.5 + (i % 5) as f32), col(&|i| if i % 24 < 8 { 0.0 } else { 0.8 * (i % 7) as f32 }), col(&|i| if i % 6 == 0 { 4.0 } else { 0.0 }), col(&|i| if i % 6 == 0 { 10.0 } else { 0.0 }), col(&|i| (i % 3) as f32 * 0.5));
        evals += 2;
        if let (Ok(a), Ok(b)) = (run(&tcase(&hourly, 0.0, 1.0, true)), run(&tcase(&hourly, 0.0, 1.0, false))) {
            nontrivial += 1;
            if let Some(w) = c12(&a, &b) { failures.push(json!({"clause": "C12", "components": "8760-step building: ILU use 3.5 + i mod 5, PV 0.8 (i mod 7) by day, cogeneration 4 kWh every 6th hour, non-EPB use", "what": w})); }
        } else {
            failures.push(json!({"clause": "C12", "components": "8760-step building", "what": "evaluation failed"}));
        }
    }
    if pid == "C11" {
        leaf::reset_noise();
        // the DHW renewable fraction does not depend on the reference area nor (for values well above the 0.01 kWh cut-offs) on a common scale of the energies
        let dhw: Vec<Box<dyn Fn(f32) -> String>> = vec![
            Box::new(|c| format!("DEMANDA,ACS,{}\n1,CONSUMO,ACS,BIOMASA,{}\n1,SALIDA,ACS,{}\n2,CONSUMO,ACS,ELECTRICIDAD,{}", 100.0 * c, 120.0 * c, 90.0 * c, 0.5 * c)),
            Box::new(|c| format!("DEMANDA,ACS,{}\n1,CONSUMO,ACS,ELECTRICIDAD,{}\n1,CONSUMO,ACS,EAMBIENTE,{}\n2,PRODUCCION,EL_INSITU,{}\n3,CONSUMO,CAL,GASNATURAL,{}", 100.0 * c, 30.0 * c, 70.0 * c, 10.0 * c, 40.0 * c)),
            Box::new(|c| format!("DEMANDA,ACS,{}\n1,CONSUMO,ACS,GASNATURAL,{}\n2,CONSUMO,ACS,TERMOSOLAR,{}\n2,AUX,{}\n2,SALIDA,ACS,{}", 100.0 * c, 50.0 * c, 60.0 * c, 0.3 * c, 60.0 * c)),
            Box::new(|c| format!("DEMANDA,ACS,{}\n1,CONSUMO,ACS,RED1,{}\n2,CONSUMO,ACS,ELECTRICIDAD,{}\n2,CONSUMO,ACS,EAMBIENTE,{}\n2,AUX,{}", 100.0 * c, 40.0 * c, 0.45 * c, 60.0 * c, 0.44 * c)),
            // small systems whose values are not multiples of 0.01 kWh
            Box::new(|c| format!("DEMANDA,ACS,{}\n1,CONSUMO,ACS,GASNATURAL,{}\n2,CONSUMO,ACS,BIOMASA,{}\n2,SALIDA,ACS,{}\n3,CONSUMO,ACS,BIOMASADENSIFICADA,{}\n3,SALIDA,ACS,{}", 1.0 * c, 0.6 * c, 0.3 * c, 0.2525 * c, 0.2 * c, 0.1225 * c)),
            Box::new(|c| format!("DEMANDA,ACS,{}\n1,CONSUMO,ACS,ELECTRICIDAD,{}\n1,CONSUMO,ACS,EAMBIENTE,{}\n1,AUX,{}\n2,PRODUCCION,EL_INSITU,{}", 2.0 * c, 0.555 * c, 1.445 * c, 0.1234 * c, 0.3 * c)),
            // a DHW demand of 0.6 kWh a year (a single tap in a large hall), twelve months of 0.05
            Box::new(|c| { let m = |v: f32| (0..12).map(|_| format!("{}", v * c)).collect::<Vec<_>>().join(","); format!("DEMANDA,ACS,{}\n1,CONSUMO,ACS,ELECTRICIDAD,{}\n1,CONSUMO,ACS,EAMBIENTE,{}", m(0.05), m(0.02), m(0.03)) }),
            Box::new(|c| format!("DEMANDA,ACS,{},{}\n1,CONSUMO,ACS,GASNATURAL,{},{}\n2,CONSUMO,ACS,BIOMASA,{},{}\n2,SALIDA,ACS,{},{}\n2,AUX,{},{}", 0.5 * c, 0.5 * c, 0.3 * c, 0.3 * c, 0.15 * c, 0.15 * c, 0.0625 * c, 0.0645 * c, 0.0125 * c, 0.0135 * c)),
        ];
        // heat pumps for DHW and heating, PV and a small biomass cogenerator: also scaled DOWN (every scaled value stays >= 0.01 kWh)
        let dhw_down: Box<dyn Fn(f32) -> String> = Box::new(|c| format!("DEMANDA,ACS,{}\n1,CONSUMO,ACS,ELECTRICIDAD,{}\n1,CONSUMO,ACS,EAMBIENTE,{}\n2,CONSUMO,CAL,ELECTRICIDAD,{}\n2,CONSUMO,CAL,EAMBIENTE,{}\n3,PRODUCCION,EL_INSITU,{}\n4,PRODUCCION,EL_COGEN,{}\n4,CONSUMO,COGEN,BIOMASA,{}", 100.0 * c, 40.0 * c, 60.0 * c, 120.0 * c, 240.0 * c, 16.0 * c, 16.0 * c, 40.0 * c));
        {
            let frac = |t: &str| -> Option<f32> { run(&Case { text: t.to_string(), loc: "PENINSULA", k_exp: 0.0, area: 100.0, lm: false }).ok().and_then(|ep| cteepbd::cte::fraccion_renovable_acs_nrb(&ep).ok()) };
            let t1 = dhw_down(1.0);
            let f0 = frac(&t1);
            evals += 1;
            if f0.is_some() { nontrivial += 1; }
            for c in [1.0f32 / 1024.0, 1.0 / 64.0, 0.25, 1024.0] {
                evals += 1;
                let f = frac(&dhw_down(c));
                let same = match (f0, f) { (Some(a), Some(b)) => same_ratio(a, b), (None, None) => true, _ => false };
                if !same { failures.push(json!({"clause": "C11.dhw_fraction_scale", "components": t1, "what": format!("DHW renewable fraction {:?}, but {:?} when every energy is multiplied by {} (every scaled value is still >= 0.01 kWh)", f0, f, c)})); }
            }
        }
        for mk in &dhw {
            let t1 = mk(1.0);
            let frac = |t: &str, area: f32| -> Option<f32> { run(&Case { text: t.to_string(), loc: "PENINSULA", k_exp: 0.0, area, lm: false }).ok().and_then(|ep| cteepbd::cte::fraccion_renovable_acs_nrb(&ep).ok()) };
            evals += 1;
            let f0 = frac(&t1, 1.0);
            if f0.is_some() { nontrivial += 1; }
            for area in [0.5f32, 20.0, 50.0, 100.0, 1024.0, 5000.0] {
                evals += 1;
                let f = frac(&t1, area);
                let same = match (f0, f) { (Some(a), Some(b)) => same_ratio(a, b), (None, None) => true, _ => false };
                if !same { failures.push(json!({"clause": "C11.dhw_fraction_area", "components": t1, "what": format!("DHW renewable fraction {:?} with area 1, {:?} with area {}", f0, f, area)})); }
            }
            for c in [2.0f32, 8.0, 128.0, 1024.0] {
                evals += 1;
                let f = frac(&mk(c), 1.0);
                let same = match (f0, f) { (Some(a), Some(b)) => same_ratio(a, b), (None, None) => true, _ => false };
                if !same { failures.push(json!({"clause": "C11.dhw_fraction_scale", "components": t1, "what": format!("DHW renewable fraction {:?}, but {:?} when every energy is multiplied by {}", f0, f, c)})); }
            }
        }
    }
    for (idx, steps) in all.iter().enumerate() {
        if gen::text(steps).is_empty() { continue; }
        leaf::reset_noise();
        let nt = steps.iter().any(|b| (b.pv > 0.0 || b.chp > 0.0) && (b.cal_el > 0.0 || b.acs_el > 0.0));
        match pid {
            "C01" | "C04" | "C13" => {
                for lm in [false, true] {
                    let k = if pid == "C04" { 0.5 } else { 0.0 };
                    let area = if pid == "C04" { 2.5 } else { 1.0 };
                    let c = case(steps, "PENINSULA", k, area, lm);
                    evals += 1;
                    if let Ok(ep) = run(&c) {
                        if nt { nontrivial += 1; }
                        let r = match pid { "C01" => c01(&ep), "C04" => c04(&ep), _ => { for (cl, w) in c13(&ep) { if known.iter().filter(|f| f["clause"] == cl).count() < 3 { known.push(json!({"clause": cl, "components": c.text, "loc": "PENINSULA", "k_exp": k, "area": area, "load_matching": lm, "what": w})); } } None } };
                        if let Some(w) = r { fail(&mut failures, steps, k, area, lm, w); }
                        if idx % 400 == 7 && samples.len() < 4 { samples.push(json!({"components": c.text, "load_matching": lm})); }
                    }
                }
            }
            "C12" => {
                evals += 2;
                if let (Ok(a), Ok(b)) = (run(&case(steps, "PENINSULA", 0.0, 1.0, true)), run(&case(steps, "PENINSULA", 0.0, 1.0, false))) {
                    if nt { nontrivial += 1; }
                    if let Some(w) = c12(&a, &b) { fail(&mut failures, steps, 0.0, 1.0, true, w); }
                    if idx % 400 == 7 && samples.len() < 4 { samples.push(json!({"components": gen::text(steps)})); }
                }
            }
            "C03" => {
                if idx % 3 != 0 && steps.len() == 1 { continue; }
                for lm in [false, true] {
                    let mut v = vec![];
                    for k in [0.0f32, 0.25, 0.5, 1.0] {
                        evals += 1;
                        if let Ok(ep) = run(&case(steps, "PENINSULA", k, 1.0, lm)) { v.push((k, ep)); }
                    }
                    if v.len() == 4 {
                        if steps.iter().any(|b| b.pv + b.chp > b.cal_el + b.acs_el) { nontrivial += 1; }
                        if let Some(w) = c03(&v) { fail(&mut failures, steps, 0.25, 1.0, lm, w); }
                        if idx % 400 == 6 && samples.len() < 4 { samples.push(json!({"components": gen::text(steps), "load_matching": lm})); }
                    }
                }
            }
            "C09" => {
                // permutation (reverse / rotate) and subdivision (m = 2, 3) of the time steps
                if steps.len() == 1 && idx % 4 != 0 { continue; }
                for lm in [false, true] {
                    for k in [0.0f32, 1.0] {
                        evals += 1;
                        let base_ep = match run(&case(steps, "PENINSULA", k, 1.0, lm)) { Ok(e) => e, Err(_) => continue };
                        let base = annual_sig(&base_ep);
                        if nt { nontrivial += 1; }
                        let mut rev = steps.clone(); rev.reverse();
                        let mut rot = steps.clone(); rot.rotate_left(1);
                        for (name, var) in [("reversed", rev), ("rotated", rot)] {
                            evals += 1;
                            if let Ok(e) = run(&case(&var, "PENINSULA", k, 1.0, lm)) {
                                if let Some(p) = sig_eq(&base, &annual_sig(&e)) { fail(&mut failures, steps, k, 1.0, lm, format!("annual result #{} changes when the steps are {}: {} vs {}", p, name, base[p], annual_sig(&e)[p])); }
                                else if let Some(d) = annual_diff(&base_ep, &e) { fail(&mut failures, steps, k, 1.0, lm, format!("an annual figure changes when the steps are {}: {}", name, d)); }
                            }
                        }
                        for m in [2usize, 3] {
                            let f = 1.0 / m as f32;
                            let sub: Vec<B> = steps.iter().flat_map(|b| std::iter::repeat(B { cal_el: b.cal_el * f, acs_el: b.acs_el * f, nepb_el: b.nepb_el * f, pv: b.pv * f, chp: b.chp * f, gas: b.gas * f, amb: b.amb * f, amb_prod: b.amb_prod * f }).take(m)).collect();
                            evals += 1;
                            if let Ok(e) = run(&case(&sub, "PENINSULA", k, 1.0, lm)) {
                                if let Some(p) = sig_eq(&base, &annual_sig(&e)) { fail(&mut failures, steps, k, 1.0, lm, format!("annual result #{} changes when every step is split in {}: {} vs {}", p, m, base[p], annual_sig(&e)[p])); }
                                else if let Some(d) = annual_diff(&base_ep, &e) { fail(&mut failures, steps, k, 1.0, lm, format!("an annual figure changes when every step is split in {}: {}", m, d)); }
                            }
                        }
                        if idx % 400 == 4 && samples.len() < 4 { samples.push(json!({"components": gen::text(steps), "k_exp": k, "load_matching": lm})); }
                    }
                }
            }
            "C11" => {
                if steps.len() == 1 && idx % 4 != 1 { continue; }
                for lm in [false, true] {
                    evals += 1;
                    let e0 = match run(&case(steps, "PENINSULA", 0.5, 2.0, lm)) { Ok(e) => e, Err(_) => continue };
                    if nt { nontrivial += 1; }
                    let base = annual_sig(&e0);
                    for c in [2.0f32, 0.5, 8.0] {
                        let sc: Vec<B> = steps.iter().map(|b| B { cal_el: b.cal_el * c, acs_el: b.acs_el * c, nepb_el: b.nepb_el * c, pv: b.pv * c, chp: b.chp * c, gas: b.gas * c, amb: b.amb * c, amb_prod: b.amb_prod * c }).collect();
                        evals += 1;
                        if let Ok(e) = run(&case(&sc, "PENINSULA", 0.5, 2.0, lm)) {
                            let s = annual_sig(&e);
                            for p in 0..s.len() {
                                let want = if p == s.len() - 1 { base[p] } else { base[p] * c };
                                if p == s.len() - 1 && (s[p] == 0.0 || base[p] == 0.0) { continue; }
                                if !eq(s[p], want) { fail(&mut failures, steps, 0.5, 2.0, lm, format!("scaling every energy by {}: result #{} = {} instead of {}", c, p, s[p], want)); break; }
                            }
                            for (cr, b) in &e.balance_cr { if let Some(b0) = e0.balance_cr.get(cr) { if b.f_match.iter().zip(&b0.f_match).any(|(x, y)| !eq(*x, *y)) { fail(&mut failures, steps, 0.5, 2.0, lm, format!("scaling by {} changes the load matching factor of {}", c, cr)); } } }
                            // every figure of the result scales (renewable shares and matching factors stay)
                            let unit = |p: &String| p.starts_with("rer") || p.contains(".f_match[");
                            let (l0, l1) = (leaf::results(&e0, false), leaf::results(&e, false));
                            let pick = |l: &leaf::Leaves, u: bool| -> leaf::Leaves { l.iter().filter(|(p, _)| unit(p) == u).map(|(p, v)| (p.clone(), *v)).collect() };
                            if let Some(d) = leaf::diff(&pick(&l0, false), &pick(&l1, false), c as f64).or_else(|| leaf::diff(&pick(&l0, true), &pick(&l1, true), 1.0)) {
                                fail(&mut failures, steps, 0.5, 2.0, lm, format!("scaling every energy by {}: {}", c, d));
                            }
                        }
                        evals += 1;
                        if let Ok(e) = run(&case(steps, "PENINSULA", 0.5, 2.0 * c, lm)) {
                            if !eq(e.balance_m2.we.b.nren * c, e0.balance_m2.we.b.nren) || !eq(e.balance.we.b.nren, e0.balance.we.b.nren) || !same_ratio(e.rer, e0.rer) || !same_ratio(e.rer_nrb, e0.rer_nrb) || !same_ratio(e.rer_onst, e0.rer_onst) {
                                fail(&mut failures, steps, 0.5, 2.0 * c, lm, format!("multiplying the area by {} does not divide the per-m2 result by it (or changes something else)", c));
                            }
                        }
                    }
                    if idx % 400 == 5 && samples.len() < 4 { samples.push(json!({"components": gen::text(steps), "load_matching": lm})); }
                }
            }
            "C14" => {
                if steps.len() == 1 && idx % 2 != 0 { continue; }
                for lm in [false, true] {
                    for k in [0.0f32, 0.5, 1.0] {
                        evals += 1;
                        let e0 = match run(&case(steps, "PENINSULA", k, 1.0, lm)) { Ok(e) => e, Err(_) => continue };
                        if nt { nontrivial += 1; }
                        for d in [0.5f32, 2.0] {
                            let mut more = steps.clone();
                            more[0].pv += d;
                            evals += 1;
                            if let Ok(e1) = run(&case(&more, "PENINSULA", k, 1.0, lm)) {
                                let (a0, a1, b0, b1) = (e0.balance.we.a, e1.balance.we.a, e0.balance.we.b, e1.balance.we.b);
                                if !le(a1.nren, a0.nren) || !le(b1.nren, b0.nren) || !le(a1.co2, a0.co2) || !le(b1.co2, b0.co2) || !le(e1.balance.del.grid, e0.balance.del.grid) {
                                    fail(&mut failures, steps, k, 1.0, lm, format!("adding {} kWh of on-site electricity raises nren/co2/grid delivery: B.nren {} -> {}, grid {} -> {}", d, b0.nren, b1.nren, e0.balance.del.grid, e1.balance.del.grid));
                                }
                                if k == 0.0 && b0.ren + b0.nren > 1e-3 && b1.ren + b1.nren > 1e-3 && !ratio_le(e0.rer, e1.rer, (b0.ren + b0.nren).min(b1.ren + b1.nren)) {
                                    fail(&mut failures, steps, k, 1.0, lm, format!("adding {} kWh of on-site electricity lowers RER {} -> {}", d, e0.rer, e1.rer));
                                }
                            }
                        }
                        if idx % 400 == 2 && samples.len() < 4 { samples.push(json!({"components": gen::text(steps), "k_exp": k, "load_matching": lm})); }
                    }
                }
            }
            _ => {}
        }
    }
    json!({
        "property": pid, "seed": seed, "evaluations": evals, "distinct_nontrivial": nontrivial, "exhaustive": false,
        "domain": "every single-step building over cal_el,pv in {0,.5,1,2,3} x nepb_el,chp in {0,1,3} x acs_el in {0,1} x gas,amb in {0,2} (1800; some predicates use a stated stride) + fixed special multi-step buildings and seeded 2-3 step buildings (60 quick / 600 thorough; the enumerated part is complete, the seeded part is a sample - hence exhaustive: false); PENINSULA factors (all four locations for the C14 text cases); both load-matching modes; text cases of each property (hand-written buildings, 30/39/52-step and 8760-step series, areas 0.004..12.345, component sets built in code for C01); comparisons between two evaluations (C03, C04 per m2, C09, C10, C11) cover every numeric field of the serialized result by path, not a list of fields",
        "rule": "a case is non-trivial when it has on-site or cogenerated electricity together with EPB electricity use",
        "failures": failures.into_iter().chain(known.into_iter()).collect::<Vec<_>>(), "samples": samples,
    })
}
