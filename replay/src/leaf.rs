//! Every numeric figure of a serialized result, by path: comparisons that do not depend on a hand-written list of fields.
use cteepbd::types::EnergyPerformance;
use serde_json::Value;
use std::collections::BTreeMap;

pub type Leaves = BTreeMap<String, Option<f64>>;

// Rounding noise of f32 arithmetic, as an absolute allowance in kWh for the building under examination: 3e-6 x the sum of all
// uses and productions of the largest evaluation seen since `reset_noise()` (f32 epsilon 1.2e-7 x the largest weighting factor
// x a few operations per term). Below 1e-4 for the enumerated small buildings; it matters for results that are differences of
// large terms (10 000 kWh of production added to a building that uses 0.02 kWh).
thread_local! { static NOISE: std::cell::Cell<f64> = std::cell::Cell::new(0.0); }
pub fn reset_noise() { NOISE.with(|n| n.set(0.0)); }
pub fn noise() -> f64 { NOISE.with(|n| n.get()) }
pub fn note_magnitude(ep: &EnergyPerformance) {
    let mag: f64 = ep.balance_cr.values().map(|b| (b.used.epus_an + b.used.nepus_an + b.used.cgnus_an + b.prod.an) as f64).sum();
    NOISE.with(|n| n.set(n.get().max(3e-6 * mag)));
}
/// is a ratio whose denominator is `den` kWh meaningful (rounding noise below 1e-3 of it)?
pub fn ratio_ok(den: f64) -> bool { den > 1e-2 && noise() / den < 1e-3 }

fn flat(v: &Value, path: &str, out: &mut Leaves) {
    match v {
        Value::Number(n) => { out.insert(path.to_string(), n.as_f64()); }
        Value::Null => { out.insert(path.to_string(), None); }
        Value::Array(a) => for (i, x) in a.iter().enumerate() { flat(x, &format!("{}[{}]", path, i), out); },
        Value::Object(o) => for (k, x) in o { flat(x, &if path.is_empty() { k.clone() } else { format!("{}.{}", path, k) }, out); },
        _ => {}
    }
}
pub fn of<T: serde::Serialize>(x: &T) -> Leaves {
    let mut out = Leaves::new();
    flat(&serde_json::to_value(x).unwrap_or(Value::Null), "", &mut out);
    out
}
/// `slack`: absolute allowance for figures the crate rounds when it serializes them (RenNrenCo2: three decimals)
fn close(a: f64, b: f64, slack: f64) -> bool {
    a.is_finite() && b.is_finite() && (a - b).abs() <= 2e-4 * a.abs().max(b.abs()).max(1.0) + slack
}
fn rounded(p: &str) -> bool {
    p.ends_with(".ren") || p.ends_with(".nren") || p.ends_with(".co2")
}
/// every figure of the result except the echoed inputs; the renewable shares are left out when their denominator is (nearly) zero
pub fn results(ep: &EnergyPerformance, annual_only: bool) -> Leaves {
    let tot = (ep.balance.we.b.ren + ep.balance.we.b.nren).abs();
    of(ep).into_iter().filter(|(p, _)| {
        !(p.starts_with("components") || p.starts_with("wfactors") || p.starts_with("misc") || p == "k_exp" || p == "arearef")
            && !(p.starts_with("rer") && !ratio_ok(tot as f64))
            && !(annual_only && p.contains('['))
    }).collect()
}
/// first path at which two sets of figures differ (a path present on one side only differs), `scale` applied to the left side
pub fn diff(a: &Leaves, b: &Leaves, scale: f64) -> Option<String> {
    for (p, x) in a {
        match (x, b.get(p)) {
            (Some(x), Some(Some(y))) => if !close(x * scale, *y, (if rounded(p) { 5.5e-4 * (scale.abs() + 1.0) } else { 0.0 }) + if p.starts_with("rer") || p.contains("f_match") { 0.0 } else { noise() * scale.abs().max(1.0) }) { return Some(format!("{}: {} vs {}", p, x * scale, y)); },
            (None, Some(None)) => {}
            (_, None) if p.starts_with("rer") => {} // a renewable share left out on one side (denominator within rounding noise)
            (x, y) => return Some(format!("{}: {:?} vs {:?}", p, x, y)),
        }
    }
    b.keys().find(|p| !a.contains_key(*p) && !p.starts_with("rer")).map(|p| format!("{}: absent vs {:?}", p, b[p]))
}
/// does the path name a figure that C03 says does not depend on k_exp: a final-energy flow (used, produced, delivered, exported)
/// or a part of the step A result (weighted delivered energy, step A weighted exported energy, step A, step A by service)?
pub fn k_independent(p: &str) -> bool {
    let we = p.contains(".we.");
    (!we && [".used.", ".prod.", ".del.", ".exp."].iter().any(|s| p.contains(s)))
        || [".we.a.", ".we.a_by_srv.", ".we.del.", ".we.exp_a."].iter().any(|s| p.contains(s))
}
/// a per-m2 figure C04 speaks of: everything in the balance except shares / factors that a later version might add to it
pub fn per_area(p: &str) -> bool {
    !(p.contains("rer") || p.contains("k_exp") || p.contains("f_match"))
}
